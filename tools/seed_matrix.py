#!/usr/bin/env python3
"""Applies every confirmed seeded change under /verif/seeded to /repo (one at a time, undone straight afterwards) and runs ALL
registered checks against it. Writes /verif/seeded/MATRIX.json and updates each meta.json with what caught it."""
import json, os, re, subprocess, sys, glob
V = '/verif'
REPO = os.environ.get('VERIF_REPO', '/repo')          # a scratch worktree when several matrix workers run side by side
OUT = os.environ.get('VERIF_MATRIX_OUT', V + '/seeded/MATRIX.json')
WRITE_META = OUT.endswith('/seeded/MATRIX.json')
man = json.load(open(V + '/MANIFEST.json'))
pids = [c['property_id'] for c in man['checks']]
only = sys.argv[1:]
matrix = json.load(open(OUT)) if only and os.path.exists(OUT) else {}
assert subprocess.run(['git', '-C', REPO, 'status', '--porcelain', '--untracked-files=no'], capture_output=True, text=True).stdout.strip() == '', REPO + ' not clean'
for d in sorted(glob.glob(V + '/seeded/*/')):
    label = os.path.basename(d.rstrip('/'))
    if only and label not in only:
        continue
    meta = json.load(open(d + 'meta.json'))
    r = subprocess.run(['git', '-C', REPO, 'apply', d + 'patch.diff'], capture_output=True, text=True)
    if r.returncode != 0:
        matrix[label] = {'error': 'patch does not apply: ' + r.stderr[:300]}
        continue
    caught = {}
    try:
        from concurrent.futures import ThreadPoolExecutor

        def run(pid):
            rr = subprocess.run([V + '/check', pid], cwd=V, capture_output=True, text=True)
            return pid, rr.returncode, re.findall(r'^FINDING (\S+)', rr.stdout, re.M)
        first = [run(pids[0])]          # does the extraction once; the rest run on the cached facts
        with ThreadPoolExecutor(8) as ex:
            rest = list(ex.map(run, pids[1:]))
        for pid, rc, keys in first + rest:
            if rc == 1:
                caught[pid] = keys
            elif rc != 0:
                caught[pid] = ['EXIT-%d' % rc]
    finally:
        subprocess.run(['git', '-C', REPO, 'checkout', '--', '.'])
    matrix[label] = {'property': meta['property'], 'caught_by': caught}
    meta['checks_run_against_it'] = pids
    meta['caught_by'] = caught
    meta['caught_by_own_property_check'] = meta['property'] in caught
    if WRITE_META:
        json.dump(meta, open(d + 'meta.json', 'w'), indent=1)
    json.dump(matrix, open(OUT, 'w'), indent=1)
    print(label, meta['property'], '->', {k: v[:3] for k, v in caught.items()}, flush=True)
json.dump(matrix, open(OUT, 'w'), indent=1)
# evidence files were rewritten against mutated trees: regenerate on the clean tree
if REPO == '/repo':
    for pid in pids:
        subprocess.run([V + '/check', pid], cwd=V, capture_output=True, text=True)
print('MATRIX DONE')
