#!/usr/bin/env python3
"""Regenerates /verif/MANIFEST.json from the table below (claimed = a rule module exists and is listed here)."""
import json, os
V = os.path.dirname(os.path.dirname(os.path.abspath(__file__)))

CLAIMED = {
    # id: (technique, level text, level note, design ref)
    "C01": ("table extraction and agreement over MIR: accepted-shape sets per carrier (both directions), fixed widths (array sizes / const generics / evaluated constants), sentinel constants, vector-codec arms, CqlValue encode/decode arm consistency, null-padding guards",
            "Static, the tables that encoder and decoder must share, compared in full: for each carrier the serializer's and the type-checker's accepted column types agree and equal the documented set; for each fixed-width native the bytes written, the length demanded on read, the CQL v4 width and the vector codec's element size agree, and the set of natives the vector codec packs without a per-element length equals the protocol's fixed-length set; -1/-2 sentinels and the invalid placeholder agree between CellWriter and read_value/read_bytes_opt; both sides of the vector codec branch on the same size function with consistent arms; each column shape that decodes to a CqlValue variant is accepted by the serializer and the typed decoder of that variant; short tuples/UDTs are null-padded by construction; the dynamic UDT / tuple serializers write one cell per field of the TYPE (a missing value is a null cell, never a skipped cell). Byte-exactness of individual values and equality after round trip are numerical and not decided.",
            "Trusts rustc MIR; CQL v4 widths/sentinels and the documented type matrix transcribed by hand.",
            "DESIGN.md §3 C01"),
    "C02": ("who-may-call / who-writes census on the stream-id structures, def-use provenance of registered ids and delivered frames, dominance and cut rules on lookup/orphan/reader, guard-across-await check on pre-lowering coroutine MIR",
            "Static, schedule-independent: a stream id is freed and leaves the orphanage only in ResponseHandlerMap::lookup (the response path); the id registered for a request is the one StreamIdSet::allocate returned; lookup tests the orphanage before touching handlers and forgets the request->stream mapping on delivery; orphan() is complete; the reader delivers the TaskResponse built from the frame it just read to the handler lookup returned and dies on an unsolicited id; no handler-map guard lives across an await; the orphan notifier is disabled only after the response is Ready; the stream-id bitmap's new / allocate / free agree on the word width and cover exactly 32768 ids. Interleavings as such and the bitmap arithmetic are not decided.",
            "Trusts rustc MIR and the role-based anchors (three private types of connection.rs); renaming them trips the fail-closed anchor check by design.",
            "DESIGN.md §3 C02"),
    "C03": ("call-sequence extraction per loop with argument provenance (two sibling encoders), cast-chain check on the tail loops, evaluated-constant census, dataflow region in Token::new, def-use provenance of key order",
            "Static, thin but pointed: both composite-key encoders feed (checked big-endian u16 length, bytes, one zero byte) per component in that order and the value only for single keys; every tail byte of the Murmur3 finaliser is sign-extended through i8; the six incompressible constants and the rotation counts equal MurmurHash3_x64_128; Token::new maps i64::MIN to i64::MAX and finish() returns through it; key components are placed by partition-key position and fetched by bind-marker index, and the response parser numbers the partition-key positions in wire order before anything is sorted. The values hash_16_bytes leaves in h1 / h2, fmix's result and rotl64's result are compared as TERMS over the inputs (value numbering of the straight-line MIR, helpers and closures expanded) with the reference MurmurHash3_x64_128 expressions: any reordering, wrong constant or wrong operator in the block step or finaliser is reported. The tail handling, buffering across chunks and the composite-key framing beyond the clauses above stay structural; equality of outputs for all inputs is not established by evaluation.",
            "Trusts rustc MIR; reference constants transcribed by hand.",
            "DESIGN.md §3 C03"),
    "C04": ("feasible-path cut rules and edge-decided facts on the NetworkTopologyStrategy walker, field-sensitive def-use slices for how the walkers / the precomputation / the lookups are armed, dataflow regions for the lookup guards, sibling agreement between the views of a replica set",
            "Static, structural clauses only - equality of the computed node lists with the servers' placement over all rings is a statement about data and is NOT decided. Decided: the NTS walker hands out a node only where its rack is unused (and records the rack) or a repeat is left (and spends it), counts every node against min(RF, unique nodes of the datacenter), is armed with RF saturating_sub rack count, and walks the distinct nodes of the datacenter ring from the token; the SimpleStrategy walker takes min(RF, unique nodes) distinct nodes of the ring walk from the token; the precomputation obtains every list from those two walkers for the ring token it files the list under, cuts the compressed per-datacenter ring at the rack count (..=rack_count / rack_count+1..), computes it for the largest such RF and remembers that RF; lookups use the compressed ring only where its RF covers the request, the per-RF ring under the requested RF, and hand out the first min(len, RF) nodes; the locator asks the walker for the same (token, datacenter, RF) it asked the table for, only where the table answered None; the ring walk starts at the first member with token >= the requested one and wraps once; every FilteredSimple view applies the same datacenter test; the chained-NTS iteration does not stop at a datacenter without replicas; every chained-NTS view asks each datacenter for its own RF.",
            "Trusts rustc MIR, itertools::unique; the placement rules are transcribed from the property text.",
            "DESIGN.md §3 C04"),
    "C05": ("CFG cut rules for the failover gates, dataflow regions on the statement type + call-graph reachability for randomness, def-use shape of the iterator composition, call-graph reachability of every selection predicate",
            "Static, thin: every selection from the whole cluster in pick()/fallback() is reachable only through the true outcome of is_datacenter_failover_possible or `no preferred DC`; the LWT arms never reach shuffling/random choice and ask for the deterministic order; fallback() de-duplicates exactly once, as the last step, and returns that iterator; every predicate handed to a selector in pick(), fallback() and the DefaultPolicy helpers they call consults is_enabled / is_alive / pick_predicate (or the predicate the helper was given); in pick() no liveness-restricted selection is attempted after one that accepts down nodes, and in fallback() no liveness-filtered group is chained after a group that may contain down nodes (live before down). Completeness and the order among live groups are properties of iterator contents and are not decided.",
            "Trusts rustc MIR and itertools::unique_by semantics.",
            "DESIGN.md §3 C05"),
    "C06": ("MIR abstract-state dataflow over the retry decision tables + CFG cut rules on the retry loop",
            "Static, all-paths: the full decision table of every workspace impl RetrySession is extracted from type-checked MIR and every Retry* site is shown to lie where is_idempotent is true or the error class is within the SAFE set; the interpreting loop is shown (reachability after cuts) to re-send only through a Retry* decision. Decides the structural clauses, not end-to-end frame counts.",
            "Trusts rustc MIR construction; SAFE set transcribed from the property text; user-supplied policies out of scope.",
            "DESIGN.md §3 C06"),
    "C07": ("dataflow regions over PagingStateResponse variants, def-use provenance of the cursor, CFG cut rules on the producer loops of the pre-lowering coroutines, guard region on the consumer",
            "Static, all page splits and consumer behaviours for the clauses that are code shape: MorePages/Continue is produced only on the HasMorePages arm and the cursor is assigned from that arm's state (never on NoMorePages); every attempt is given the current cursor and a new pager starts from PagingState::start(); both producer loops fetch the next page only after this iteration's page was sent with an awaited Ok and more pages were announced, and stop on a closed channel, on NoMorePages/Break and after an error was sent; errors of a failed fetch are handed over with the awaited send (never try_send on the capacity-1 channel); the consumer replaces its page only when exhausted; every page goes through the common retry core with a fresh plan; no hand-written poll function of the row stream can return Pending after an inner poll returned Ready without waking the task or polling again (an empty page cannot strand the consumer). (The re-sent EXECUTE keeping its paging state is C14.R2.)",
            "Trusts rustc MIR and mpsc FIFO semantics.",
            "DESIGN.md §3 C07"),
    "C08": ("call-graph reachability from decode entry points + panic-site census with reviewed/discharged table, shape-set consistency of `unreachable!` arms, origin classification of allocation sizes, SCC recursion review",
            "Static, all inputs: over the ~1750 workspace functions reachable from the decode entry points, every Assert terminator and panicking-API call is either discharged by a local rule or listed in a reviewed table with its guard (some guards re-checked structurally); every `unreachable!/expect` that relies on a prior type_check is shown to be reachable only under shapes the sibling type_check rejects; every capacity-taking call is classified by the origin of its size and a 32-bit wire field must be clamped by the remaining input; every call-graph cycle must have a reviewed depth bound. Two defects were repaired by fix: commits (unchecked preallocation from column counts, vector size overflow); four are recorded as known findings (frame-length and LZ4 preallocation, two unbounded recursions). Termination of parser loops and exact content of decoded values are not decided.",
            "Trusts rustc MIR, the call-graph over-approximation for dyn/generic calls, and the reviewed tables (each entry confirmed by reading). Third-party crates by signature.",
            "DESIGN.md §3 C08, §6"),
    "C09": ("MIR emission-sequence extraction with dataflow guards (flag/field/writer pairing, order), evaluated constant tables, cast census",
            "Static: for QUERY/EXECUTE parameters and BATCH every `flags |= C` site and its payload writer are shown to be guarded by the presence of the same field, to use the CQL v4 writer for that item and to write that field; the emission order of every SerializableRequest equals the v4 grammar; opcode/flag constants and the header layout in SerializedRequest::make equal the v4 tables; no narrowing `as` cast of a length/count remains in request building (the two that existed were repaired by a fix: commit). Because each guard depends on one field, the 2^6 option subsets reduce to independent per-field obligations, all checked.",
            "Trusts rustc MIR; CQL v4 tables transcribed by hand; compression libraries and value encodings (C01) out of scope.",
            "DESIGN.md §3 C09"),
    "C10": ("exit classification and CFG cut rules on the pre-lowering coroutines of reader / keepaliver / router / send_request / read_response_frame, dataflow guards, call-graph facts for the pool",
            "Static, every cut offset and fault kind at once for the clauses that are code shape: the reader has no Ok exit; in read_response_frame the header is a propagated read_exact, a zero-byte read leads to an error exit and cannot re-enter the loop, and Ok is reachable only when the declared length was filled; on the Err outcome of try_join! every path to the router's exit collects the handler map, sends Err to each of its handlers and notifies the pool; both awaits of send_request map a dropped channel end to BrokenConnectionError and nothing unwraps; wrong header version/direction and keepalive timeouts are error exits; a kept connection is always watched and its removal republishes the list; every round of the keepalive loop (tick or hint) issues a keepalive, awaits it, and only a Ready reply lets the next round start. Promptness and TCP behaviour are not decided.",
            "Trusts rustc MIR; anchors are roles (read_buf loop, try_join result, oneshot sends) and fail closed when rewritten.",
            "DESIGN.md §3 C10"),
    "C11": ("value numbering (term comparison) of the single-path bodies shard_of / shard_of_source_port against the algorithm in the property text; a symbolic congruence domain (linear forms over the inputs modulo nr_shards) for the lowest-port computation; field-sensitive def-use slices through closure captures for the stepped port ranges, the wrap-around iterator and the drawn port; dataflow region for the ShardInfo validation",
            "Static, expression shape only - nothing is evaluated on concrete numbers and no solver is used: shard_of is, as a term over its inputs, ((token + 2^63 mod 2^64) << msb_ignore) * nr_shards >> 64 with the bias and shift on u64 and the product on u128; shard_of_source_port is port mod nr_shards; ShardInfo is built only by ShardInfo::new, whose Ok lies where shard < nr_shards, fed from the three SCYLLA_* entries in their own positions with the count through NonZero::new; the lowest port of a shard is range_start + r where r is a remainder modulo nr_shards whose class is shard - range_start (congruence domain), computed without 16-bit additions, wrapping operations or a subtraction that can underflow, and it is handed out exactly under `port <= range_end` (a strict or shifted bound is reported); every stepped range is the inclusive [lowest port ..= range_end] stepped by nr_shards itself; the port iterator is skip(k) of one such range chained with take(k) of another with the same k and is empty only where no lowest port exists; the drawn port is an element of such a range. The step from these shapes to 'in range, congruent to the shard, every such port exactly once, below the shard count' is textbook arithmetic that is stated, not machine-checked; an equivalent rewrite into a different arithmetic form is reported for reading.",
            "Trusts rustc MIR; the algorithm is transcribed from the property text.",
            "DESIGN.md §3 C11"),
    "C12": ("def-use provenance at every RoutingInfo aggregate (through closure captures), dataflow regions in replicas_for_token, who-may-call on shard_of / ShardInfo, provenance of the pool bucket index",
            "Static, glue only: every RoutingInfo's token is None or computed on the same prepared statement whose table spec and LWT flag it carries; tablet replicas take precedence over strategy-based lookup; the shard of a replica is computed only by the paired node's own sharder; the pool files a connection under the shard the server reported for it and the plan's shard selects the connection; every EXECUTE response feeds the tablet map; every datacenter/rack criterion handed to replica selection in pick()/fallback() derives from the effective preference computed by routing_info() (policy-level, else inherited from the session); the pool keeps its sharder only where the reported one equals it as a whole (shard count and msb_ignore). Correctness of the token, replica set, plan and shard arithmetic themselves is the business of C03/C04/C05/C11.",
            "Trusts rustc MIR; composition only.",
            "DESIGN.md §3 C12"),
    "C13": ("dataflow guards on the speculative loop of the pre-lowering coroutine (start sites vs. counter, exits vs. can_be_ignored / emptiness), who-may-call for the gate",
            "Static, all schedules for the clauses that are code shape: execute() is entered only inside `if self.is_idempotent`; one original start outside the loop; every speculative start lies in the retries_remaining > 0 region and cannot recur without the decrement, the counter is otherwise only zeroed (=> at most 1 + max starts); execute returns either a result for which can_be_ignored was false or only where async_tasks.is_empty() and retries_remaining == 0, returning the remembered last error; a speculative fiber never manufactures EmptyPlan (an exhausted plan is reported as None). Liveness of the select loop is not decided.",
            "Trusts rustc MIR and the futures::select!/FuturesUnordered semantics.",
            "DESIGN.md §3 C13"),
    "C14": ("dataflow regions (id comparison, Unprepared arm, `?` Continue edges), def-use provenance of the re-sent frame's fields and of the metadata snapshot, who-may-call on the metadata cache",
            "Static, all histories for the clauses that are code shape: reprepare returns Ok only where the new id equalled the old one; the EXECUTE is re-sent only on the Unprepared arm after an awaited reprepare Ok and every field of the re-sent frame is the first frame's field or built from the same request argument (no regenerated timestamp, no defaulted paging state); for each send the skip_metadata flag, the metadata id and the metadata used to decode the response come from one calculate_cached_metadata_params snapshot taken after the latest metadata read (after reprepare for the resend); the batch loop re-sends only through a successful reprepare and looks the UNPREPARED id up in the statement list that was actually sent (prepare_batch's output); the cache is replaced only by reprepare or by a response that carried an id.",
            "Trusts rustc MIR; server behaviour out of scope.",
            "DESIGN.md §3 C14"),
    "C15": ("who-writes census on the tablet list, normalised comparison extraction from the predicate closures (sibling agreement lookup vs. insert), cut/dominance rules on add_tablet, dataflow guard on payload validation",
            "Static, history-independent necessary conditions: tablet_list is mutated only by add_tablet - through exactly one drain then one insert on every path - and by maintenance; range bounds are immutable; the two overlap bounds of insert are the very predicates the lookup uses (t.last < x / t.first <= x instantiated at new.first / new.last) and drain(left..right) precedes insert(left); a payload is accepted only where last > first; per-DC replica lists are filled from the full list; unresolvable tablets are dropped and the unknown-replica flags can only be raised by add_tablet; the batch received from the feedback channel reaches update_tablets untouched and every element is handed to add_tablet in arrival order. The invariant over histories as such is not enumerated.",
            "Trusts rustc MIR; the rule compares siblings inside the crate rather than a frozen table.",
            "DESIGN.md §3 C15"),
    "C16": ("MIR analysis of macro-GENERATED code: a fixed family of derived structs is compiled under the fact driver; literal-arm to field/type tables, dataflow on the visited-flag accounting, positional tables of the ordered flavor",
            "Static, wiring of the generated code only: for 16 structs covering flavor x rename x skip x flatten (two levels) x default_when_null x allow_missing x forbid_excess x skip_name_checks, every by-name arm selected by the literal L (de)serializes / type-checks exactly the field whose declared CQL name is L with its declared type, and the value decoded under L lands in that field; by-name row serializers report Done only where remaining_count == 0 and decrement it once per field under the visited flag; the ordered flavor serializes field i under expected name i with ENFORCE_NAME matching skip_name_checks, and the by-name UDT serializer refuses a UDT lacking a required field for exactly the required fields (a genuine defect found by this rule was repaired, see known_findings.json) and flushes the nulls owed for skipped UDT fields exactly once; the ordered UDT deserializer consumes a CQL field's value (deserialize it, or replace it by Default because it is null) only where the name comparison in force is the Rust field's own name. Behaviour under all permutations / missing / extra patterns needs execution and is not decided.",
            "Trusts rustc MIR; the family is a fixed sample; the sidecar table mirrors its declarations.",
            "DESIGN.md §3 C16"),
    "C17": ("MIR abstract-state dataflow over ColumnType/NativeType/CollectionType discriminants: may-return-Ok shape sets of every serialize/type_check impl vs. a reference matrix; dominance/cut rules on add_value and TypedRowIterator::new",
            "Static, whole matrix at once: for each of the ~55 SerializeValue and ~60 DeserializeValue impls of scylla-cql-core the exact set of column-type shapes under which serialize / type_check can return Ok is extracted (through helper gates, delegations and `?`), compared cell by cell with the documented matrix and between the two directions; no CellWriter call is reachable under a rejected shape; add_value's error edge restores the pre-serialisation length and element_count moves only on the Ok edge; TypedRowIterator is only built after R::type_check succeeded; the WrittenCellProof token every serialize() must return is minted only by the four cell-finishing writers, after they appended / back-patched the cell. Value-dependent checks inside dynamic CqlValue serialisation (e.g. UDT field-name accounting) are not decided.",
            "Trusts rustc MIR; reference matrix transcribed from docs/source/data-types; third-party impls out of scope.",
            "DESIGN.md §3 C17"),
    "C18": ("MIR who-writes census on the atomic + dataflow/dominance on the CAS loop and compute_next exits + call-graph provenance of the frame timestamp",
            "Static, all-paths: `last` is written only by one compare_exchange whose operands are (value loaded this iteration, compute_next(that value)); next_timestamp returns only in the CAS-success region and returns the published value; compute_next returns the clock reading only in the `reading > last` region, else last+c (a value returned straight from a call such as max(reading, last) is neither). These shapes make the textbook CAS argument (pairwise distinct, per-thread increasing, any interleaving, any clock) applicable. The generator is shown to be consulted only as the or_else fallback of the statement's own timestamp.",
            "Trusts rustc MIR, compare_exchange semantics; i64 overflow at last+1 and user-provided generators not covered.",
            "DESIGN.md §3 C18"),
    "C19": ("MIR dominance / cut rules on the pre-lowering coroutine of Receiver::recv, Sender::modify and the Drop impls; impl-table and type facts for SPSC",
            "Static, schedule-independent: the code shapes that admit a lost wake-up, a lost last value or a duplicated value (inspect before enable, notify before flag, no re-take on the dropped edge, await reachable after a take that held a value, notified() hoisted out of the loop, weak orderings on the flags, Clone endpoints, slot reachable without the mutex) are each excluded on every path of merge_channel.rs. Liveness clauses are not decided.",
            "Trusts rustc MIR and tokio::sync::Notify's enable()/notify_one() permit semantics.",
            "DESIGN.md §3 C19"),
    "C20": ("CFG cut rules on the publication gate of the pool refiller, store-before-use dominance, def-use provenance of the setup event, who-constructs census of the verified-name type",
            "Static, schedule-independent: every path that pushes a connection into the published set leaves the keyspace test through `no keyspace set` or `keyspace equal`, the `different` outcome is routed through keyspace setup and re-enters the same gate carrying the keyspace it set; the keyspace is recorded before the fan-out snapshots are taken; fan-outs await join_all over all nodes/connections before replying and a USE reply that is not an Err can only be sent by the two tasks that awaited the fan-out; a node forwards USE to its pool whenever it has one, connected or not; VerifiedKeyspaceName is only built after validation and is the only source of the USE statement text; the response name is checked. Races as such are not enumerated.",
            "Trusts rustc MIR; role-based anchors on PoolRefiller / ClusterWorker / Connection::use_keyspace.",
            "DESIGN.md §3 C20"),
}

# clauses added by the fourth seed round (DESIGN §3 "Round 4 added", §9)
ROUND4 = {
    "C01": " For every hand-written native serializer the bytes handed to set_value derive from the value only through representation accessors (no call that chooses another representation in between).",
    "C02": " The frame reader consumes exactly one frame: read_exact into the fixed header, read_buf only into a buffer limited to the header's length.",
    "C05": " is_datacenter_failover_possible is exactly `a datacenter is preferred && permit_dc_failover`.",
    "C06": " Every is_idempotent field of a driver struct is filled from the statement's flag (never a constant).",
    "C07": " Whether a paging state is present is decided by the HAS_MORE_PAGES flag alone (an empty state is still a state).",
    "C08": " The frame body read loop leaves with an error on a read of 0 bytes (a frame cut inside its body cannot spin).",
    "C09": " Compression is requested in STARTUP only if the server listed it, and an unsupported algorithm is forgotten before any frame is written.",
    "C10": " Every removal of a connection from the pool republishes the shared connection list.",
    "C12": " The NTS deterministic order starts at a node of a datacenter the keyspace replicates to.",
    "C13": " The table of ignorable execution outcomes (another execution may still answer) equals the reviewed table.",
    "C14": " Result metadata is skipped only on the user's opt-in or when this connection negotiated the metadata-id extension, never for 0-column metadata.",
    "C15": " The replica refresh after node re-creation visits every replica of the full list and of every per-DC list.",
    "C16": " A by-name type_check accepts only after the iterator over the fields the database lists is exhausted.",
    "C17": " TypedRowStream marks a page as type-checked only after the check succeeded and deserializes rows only from a checked page.",
    "C20": " use_keyspace_result never returns Ok once a connection answered with an error other than a broken connection, and only after at least one Ok.",
}

# clauses added by the fifth seed round
ROUND5 = {
    "C01": " A zero-length vector element decodes as an empty value (read_n_bytes is never asked for 0 bytes).",
    "C02": " The reader awaits read_response_frame in place: a frame read, once started, is never dropped half-way by a timeout / select.",
    "C03": " Every handle made from a prepared statement (clone, cache handle, configured handle) carries its partitioner.",
    "C08": " Response body extensions are read in wire order (tracing id, warnings, custom payload), each under its own header flag.",
    "C13": " The error reported when every execution failed ignorably is the last one (each ignorable result overwrites the slot).",
    "C15": " Maintenance is told about every node of the old topology that is missing from the new one.",
    "C16": " The ordered UDT serializer consumes a database field only after its name matched.",
    "C18": " A batch the driver derives from the caller's batch keeps the caller's configuration (explicit timestamp included).",
    "C19": " Every merge_* function stores or hands on what it was given on every path.",
    "C20": " A keyspace name passes local validation only if it is 1..=48 characters of [A-Za-z0-9_].",
}

# clauses added by the sixth seed round
ROUND6 = {
    "C01": " A value that is present is never bound as null / unset (only Option, MaybeUnset, Unset and the null-padding of short tuples / UDTs write an absent cell).",
    "C03": " Every bound partition-key value that is present is recorded for the token computation, whatever its length.",
    "C05": " No selection predicate accepts a node on which its own host-filter / liveness tests all came out false.",
    "C07": " The plan of every page keeps all targets of the load-balancing plan other than the coordinator tried first.",
    "C08": " A reserved (negative) stream id from the header never reaches the response-handler map, whose bitmap is indexed with it.",
    "C09": " A statement's explicit `no serial consistency` is not replaced by the execution profile's level.",
    "C12": " Every (replica, shard) pair a replica set hands out pairs the node with its own shard.",
    "C14": " Every UNPREPARED answer (not only the first of a request) leads to a re-preparation or to the id-missing error.",
    "C16": " A NULL becomes Default::default() only for fields marked default_when_null.",
    "C19": " A refresh request is answered only after the refreshed cluster state was published.",
    "C20": " A keyspace name taken from the server's SET_KEYSPACE answer is spread case-sensitively.",
}

# clauses added by the seventh seed round
ROUND7 = {
    "C01": " Signed vints use the one 64-bit zig-zag codec; the 32-bit duration components are widened before it.",
    "C02": " The stream-id bitmap and the orphan tracker are created once per connection and never reset while it lives.",
    "C03": " The sink that receives the encoded partition key forwards every chunk at once, in call order.",
    "C05": " pick() and fallback() agree on whether the request is routed by token.",
    "C07": " A stream id is released only when its response arrives, so a late page cannot answer a later page request.",
    "C08": " An error-yielding parser stream latches after its first error or is never drained by an exhaustive consumer (a genuine hang was found and repaired). The generated by-name type_check refuses duplicated field names (the guard the derive deserializers' assertions rely on).",
    "C09": " The batch value adapter is as long as the value lists, so surplus value lists are seen and refused.",
    "C10": " Between the first connection error and the broadcast to pending handlers the router awaits nothing.",
    "C12": " Tablet replicas follow a node whose Node object was re-created (identity, not host-id equality).",
    "C14": " A metadata id announced with the answer to the re-sent EXECUTE is recorded from THAT answer.",
    "C15": " Maintenance is told old and new topology in their places on every refresh path; re-created nodes are recognised by object identity.",
    "C16": " Ordered type_check refuses a UDT that ends before a required field; by-name type_check refuses duplicated names.",
    "C19": " A newer status hint is never dropped in favour of an older pending one.",
}

# clauses added by the eighth seed round
ROUND8 = {
    "C02": " Request frames are handed to the socket completely (write_all).",
    "C03": " The hash finalisation mixes in the whole key length.",
    "C04": " The rack count of a datacenter and the NTS walker agree that a rack-less node is a rack of its own.",
    "C05": " An explicit policy-level location preference (also `no datacenter`) wins over the one inherited with the request.",
    "C07": " An unsharded previous coordinator leaves the rest of the page's plan whatever shard is proposed; every page fetch gets the request's full timeout.",
    "C09": " A batch rebuilt by the driver keeps the caller's configuration (timestamp, tracing).",
    "C10": " Only headers with the response bit and protocol version exactly 4 pass validation.",
    "C12": " The replica lists the first attempt is picked from are the walkers' own, precomputed or not.",
    "C13": " The plan of one page never names the previous coordinator twice.",
    "C14": " Every page of a paged execution is type-checked against the metadata that came with it.",
    "C15": " Every tablet learnt from the server goes through its table's overlap removal.",
    "C16": " By-name row serialization writes a cell for every listed column; the ordered type_check checks the type of every field it matches.",
    "C17": " The generated ordered type_check checks the CQL type of every UDT field it matches to a Rust field.",
    "C20": " A pool never forgets the keyspace it was told.",
}

# clauses added by the ninth seed round
ROUND9 = {
    "C01": " Thorough tier: the optional date/time carriers convert into CqlTimestamp / CqlDate without truncating division.",
    "C03": " Both documented partitioner class names are recognised.",
    "C04": " Every ring token gets a precomputed entry (no dropping adapter between the ring and the map).",
    "C05": " The node stages of pick() are tried with and without a token.",
    "C06": " The consistency shown to the retry policy is the one the attempt was sent with; a failed connection pick advances the plan.",
    "C09": " An explicitly set timestamp is never replaced by the generator's.",
    "C10": " A target without a usable connection is skipped, never asked again in a loop.",
    "C11": " A shard-aware connection's source port always comes from that shard's port iterator; an exhausted iterator is an error.",
    "C12": " A tablet delivered again replaces the one held for its range.",
    "C13": " The call has a value to return when no execution recorded an error (the optional last error is never unwrapped).",
    "C16": " The ordered UDT deserializer fetches a field only when none is parked.",
    "C17": " Whether a column type is frozen never decides acceptance.",
}

# clauses added by the tenth seed round
ROUND10 = {
    "C03": " The value of key marker i is read at position i of the bound values.",
    "C04": " The ring-ordered NTS view starts at a node of a replicating datacenter.",
    "C05": " The fallback plan ends with every enabled node of the local set, live or not.",
    "C06": " No idempotence flag is recomputed by the driver.",
    "C08": " The custom type parser never answers without consuming input except at its end.",
    "C10": " The pool task's bucket accesses on connection removal are bounds-guarded (late errors after a reshard).",
    "C15": " A tablet replica's node and shard come from the same raw entry.",
    "C16": " By-name UDT serialization skips its missing-field checks only when every field was visited.",
    "C17": " A vector takes exactly `dimensions` elements whatever its element type.",
    "C19": " A partial merge never overwrites a pending update.",
    "C20": " The USE fan-out is started by the cluster worker only.",
}

# clauses added by the eleventh seed round
ROUND11 = {
    "C01": " The set of types that have the zero-length empty value is the protocol's.",
    "C05": " A refresh keeps an old node object only if its enabled flag equals the host filter's current verdict.",
    "C07": " The page producer stops when the consumer is gone, also when pages and errors share one send.",
    "C08": " The lending row iterator answers None only when the announced row count is exhausted.",
    "C09": " The EXECUTE re-sent after UNPREPARED carries the caller's parameters.",
    "C10": " The keepaliver is started with the configured interval and timeout, unconditionally.",
    "C12": " The replica set of an NTS keyspace walks every datacenter.",
    "C14": " Cached result metadata stands in only for a response that carries none.",
    "C16": " Column and field names are compared exactly (no case folding).",
    "C17": " A failed delegated type_check (element, key, value, field, column) never becomes acceptance.",
    "C18": " The driver never overwrites a statement's explicit timestamp.",
    "C19": " Freshly fetched full metadata is published as fetched.",
    "C20": " A fresh connection's keyspace setup succeeds only on an answered USE.",
}

# clauses added by the twelfth (half) seed round
ROUND12 = {
    "C01": " The derived by-name UDT serializer pads skipped fields exactly once.",
    "C05": " The policy's failover switch is the builder's, unconditioned.",
    "C08": " VectorIterator::nth subtracts from `remaining` only under `n < remaining`.",
    "C10": " The pool's shard fallback can reach every shard.",
    "C14": " Metadata announced at re-preparation is adopted unless it would replace columns by none.",
    "C16": " default_when_null covers an explicit NULL as well as an absent field (by-name UDT deserializer).",
    "C17": " The empty value is refused for types that do not have it.",
}

NOT_APPLICABLE = {
}

ALL = ["C%02d" % i for i in range(1, 21)]


def main():
    checks = []
    for pid in ALL:
        if pid in CLAIMED:
            tech, text, note, ref = CLAIMED[pid]
            checks.append({
                "property_id": pid,
                "quick_cmd": "./check %s --tier quick" % pid,
                "thorough_cmd": "./check %s --tier thorough" % pid,
                "evidence_file": "/verif/evidence/%s.json" % pid,
                "replay_cmd_template": "./check explain {path}",
                "engine": "scyllalint",
                "level_claimed": {"category": "other", "text": text + ROUND4.get(pid, "") + ROUND5.get(pid, "") + ROUND6.get(pid, "") + ROUND7.get(pid, "") + ROUND8.get(pid, "") + ROUND9.get(pid, "") + ROUND10.get(pid, "") + ROUND11.get(pid, "") + ROUND12.get(pid, ""), "design_ref": ref},
                "level_note": note,
                "technique": tech,
            })
    na = []
    for pid in ALL:
        if pid not in CLAIMED:
            na.append({"property_id": pid, "reason": NOT_APPLICABLE.get(pid, "not built yet: no static rule implemented for this property in this revision (see DESIGN.md §7)")})
    m = {
        "version": 1,
        "setup_cmd": "./setup.sh",
        "hooks": {
            "guard": "scylladb_scylla_rust_driver_verif",
            "enable": "none needed: static analysis reads the real code; no cfg-guarded hooks exist in /repo",
            "baseline_off_cmd": "cd /repo && cargo nextest run --workspace --no-fail-fast --tool-config-file pb:/w/lib/nextest.toml --profile pb --test-threads 8 --offline",
            "source_commits": [],
            "add_only": True,
        },
        "engines": [
            {"name": "mirfacts", "path": "/verif/mirfacts", "serves_properties": sorted(CLAIMED), "kind_free_text": "rustc_private driver (RUSTC_WORKSPACE_WRAPPER under cargo +nightly check) dumping mir_promoted facts as JSON"},
            {"name": "scyllalint", "path": "/verif/scyllalint", "serves_properties": sorted(CLAIMED), "kind_free_text": "Python rule engine over MIR facts: CFG, dominators, abstract-state dataflow, call graph, per-property rule modules"},
        ],
        "checks": checks,
        "not_applicable": na,
        "notes": "Thorough tier: the same rule modules are run three times, over the MIR of the default feature set, of `full-serialization,metrics` and of `unstable-testing` + --cfg scylla_unstable (different cfg => different code compiled in; e.g. 8 more panic sites and 28 more carrier impls under `full`). Technique family: static analysis only. Every check extracts MIR facts from /repo's current working tree (cached by source hash) and decides structural clauses of the property; see DESIGN.md.",
    }
    with open(os.path.join(V, "MANIFEST.json"), "w") as fh:
        json.dump(m, fh, indent=1)
    print("claimed:", sorted(CLAIMED), "n/a:", len(na))


if __name__ == "__main__":
    main()
