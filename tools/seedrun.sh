#!/bin/sh
# seedrun.sh <patch.diff> <PID>...  — apply a seeded change to /repo, run the given checks, undo it straight afterwards
P="$1"; shift
git -C /repo apply "$P" || exit 3
for pid in "$@"; do
  /verif/check "$pid" | grep -E "^(FINDING|TOOL|$pid tier)" | cut -c1-500
done
git -C /repo checkout -- .
git -C /repo status --short | head -3
