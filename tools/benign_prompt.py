#!/usr/bin/env python3
"""Print the prompt for a sub-agent that writes BEHAVIOUR-PRESERVING refactorings inside the code a set of properties is
anchored in (to probe the checks for false alarms). benign_prompt.py <worktree> <PID> [<PID> ...]"""
import json, sys
wt = sys.argv[1]
pids = sys.argv[2:]
props = {}
for l in open('/verif/properties.jsonl'):
    p = json.loads(l)
    props[p['id']] = p
blocks = []
for pid in pids:
    p = props[pid]
    blocks.append(f"""ID: {p['id']}
TITLE: {p['title']}
STATEMENT: {p['statement']}
CODE ANCHORS: {json.dumps(p['anchors'])}
""")
print(f"""You are helping to evaluate verification tooling for the Rust crate workspace scylladb/scylla-rust-driver.
You have your own scratch git worktree of the repository at {wt} (detached HEAD, Cargo.lock present; there is NO network, always pass
--offline to cargo and use `-j 6`; the build starts cold there, so the first build takes a few minutes).
Work ONLY inside {wt}. Never touch /repo or /verif, and do not read anything under /verif or /root/.claude.

Below are {len(pids)} semantic properties the driver satisfies today, each with the code it is anchored in. Your task is the OPPOSITE of
breaking them: for EACH property write THREE independent, realistic, BEHAVIOUR-PRESERVING refactorings of the anchored production code -
the kind of clean-up a maintainer does without changing what the code does. The property must still hold after each one, and the observable
behaviour of the driver must be exactly the same. Touch the very functions the anchors name (the guards, loops, tables, comparisons,
call sequences that implement the property), not unrelated code and not tests. Vary the kind of edit, for example:
  - rewrite a guard in an equivalent form (`if let .. &&` <-> `match` into a boolean; early return <-> nested if; `!=` <-> `!(==)`; swap the
    operands of a symmetric comparison; De Morgan),
  - introduce or inline a local variable / temporary; hoist a sub-expression,
  - extract a few lines into a small private helper function or closure, or inline an existing tiny helper,
  - reorder two statements that are independent of each other,
  - replace a `for` loop by an equivalent iterator chain or vice versa; `while let` <-> `loop {{ match }}`,
  - replace `?` by an explicit `match`/`map_err` with identical result, or the reverse,
  - rename a local variable or a private function; split one function into two private ones,
  - change `a.method(b)` into `Type::method(a, b)`; replace a macro use by its plain equivalent where trivial.
Do NOT change public API, error variants returned, the order or content of bytes written, which calls are made in which order when the order
matters, logging at info level or above, or any test. Each refactoring must be small (ideally < 40 changed lines), must compile
(`cargo check --offline -j 6 -p scylla -p scylla-cql -p scylla-cql-core -p scylla-macros --all-targets`) and the unit tests of the crate(s)
you touched must pass exactly as before (`cargo test --offline -j 6 -p <crate> --lib`; in `scylla` 16 tests that need a live cluster fail
with "Connection refused" on the pristine tree too - ignore those).

PROPERTIES:

{chr(10).join(blocks)}
DELIVERABLES, all inside {wt}/SEED/ :
  - one file per refactoring, named <PROPERTY-ID>-benign-<n>.diff (n = 1..3): `git diff` of ONLY that refactoring, applicable with
    `git apply` at the root of the pristine tree, independently of all your other diffs (reset the tree between refactorings:
    `git checkout -- .`),
  - README.md: for each diff, two or three lines: what was rewritten, and why behaviour is unchanged (be specific about evaluation order,
    error paths and side effects), plus the commands you ran and their results.
Be strict with yourself: if you are not sure that an edit is behaviour-preserving on every path, pick a different edit.
In your final message list the diffs you produced with one line each.
""")
