#!/usr/bin/env python3
"""seed_confirm.py <worktree> <label> <property> <demo command...>
Confirms a seeded breaking change in its scratch worktree (never in /repo):
  demo passes on pristine+demo, fails on pristine+demo+patch, the tree compiles, and no test of the pinned stable-pass set fails.
Writes /verif/seeded/<label>/{patch.diff,demo.diff,NOTES.md,meta.json}."""
import json, os, re, shutil, subprocess, sys, time
wt, label, prop = sys.argv[1:4]
demo = sys.argv[4:]
out = '/verif/seeded/' + label
os.makedirs(out, exist_ok=True)
env = dict(os.environ, CARGO_NET_OFFLINE='true')
log = open(os.path.join(out, 'confirm.log'), 'w')


def sh(cmd, **kw):
    log.write('$ %s\n' % (cmd if isinstance(cmd, str) else ' '.join(cmd)))
    log.flush()
    r = subprocess.run(cmd, cwd=wt, env=env, shell=isinstance(cmd, str), stdout=subprocess.PIPE, stderr=subprocess.STDOUT, text=True, **kw)
    log.write(r.stdout[-6000:] + '\n[exit %d]\n' % r.returncode)
    log.flush()
    return r


seed = os.path.join(wt, 'SEED')
for f in ('patch.diff', 'demo.diff'):
    shutil.copy(os.path.join(seed, f), os.path.join(out, f))
if os.path.exists(os.path.join(seed, 'README.md')):
    shutil.copy(os.path.join(seed, 'README.md'), os.path.join(out, 'NOTES.md'))
sh('git reset -q --hard HEAD && git clean -fdq -e SEED -e target -e Cargo.lock -e TASK.md')
meta = {'property': prop, 'label': label, 'demo_cmd': ' '.join(demo), 'confirmed_at': time.strftime('%Y-%m-%d %H:%M:%S')}
r = sh('git apply SEED/demo.diff')
meta['demo_applies'] = r.returncode == 0
r = sh(demo)
m0 = re.findall(r'test result: (\w+)\. (\d+) passed; (\d+) failed', r.stdout)
meta['demo_tests_run_without_change'] = sum(int(x[1]) for x in m0)
meta['demo_passes_without_change'] = r.returncode == 0 and meta['demo_tests_run_without_change'] > 0
r = sh('git apply SEED/patch.diff')
meta['patch_applies'] = r.returncode == 0
r = sh(demo)
meta['demo_fails_with_change'] = r.returncode != 0
m = re.findall(r'test result: (\w+)\. (\d+) passed; (\d+) failed', r.stdout)
meta['demo_with_change_summary'] = m[-3:]
# compile check of all targets + pinned tests with the change (demo removed first so only the change is judged)
sh('git reset -q --hard HEAD && git clean -fdq -e SEED -e target -e Cargo.lock -e TASK.md && git apply SEED/patch.diff')
r = sh('cargo check --offline -p scylla -p scylla-cql -p scylla-cql-core -p scylla-macros --all-targets')
meta['compiles_with_change'] = r.returncode == 0
r = sh('cargo nextest run -p scylla -p scylla-cql -p scylla-cql-core -p scylla-macros --lib --bins --no-fail-fast --offline --test-threads 8 --status-level fail --final-status-level fail --failure-output never 2>&1 | grep -E "^\\s+(FAIL|TIMEOUT|SIGABRT|SIGSEGV|LEAK)" | sort -u')
failed = set()
for line in r.stdout.splitlines():
    mm = re.match(r'\s+\w+ \[[^\]]*\]\s+(?:\(\s*\d+/\d+\)\s+)?(\S+)\s+(\S+)', line)
    if mm:
        failed.add(mm.group(1) + '::' + mm.group(2))
stable = set(json.load(open('/root/.vp/BASELINE.json'))['stable_pass'])
bad = sorted(failed & stable)
meta['unit_tests_failed_total'] = len(failed)
meta['stable_pass_tests_failing_with_change'] = bad
meta['existing_tests_still_pass'] = not bad and meta['compiles_with_change']
meta['what_i_ran'] = ['git apply demo.diff; ' + ' '.join(demo) + ' (expect pass)', 'git apply patch.diff; same (expect fail)',
                      'cargo check --all-targets with patch only', 'cargo nextest --lib for the 4 driver crates with patch only, failures intersected with BASELINE.stable_pass']
meta['confirmed'] = all([meta['demo_applies'], meta['demo_passes_without_change'], meta['patch_applies'], meta['demo_fails_with_change'], meta['existing_tests_still_pass']])
sh('git reset -q --hard HEAD && git clean -fdq -e SEED -e target -e Cargo.lock -e TASK.md')
json.dump(meta, open(os.path.join(out, 'meta.json'), 'w'), indent=1)
print(json.dumps(meta, indent=1))
