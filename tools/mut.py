#!/usr/bin/env python3
"""dev helper: mut.py <PID> <file-under-/repo> <old> <new>  — apply one textual mutation to /repo, run ./check PID, revert."""
import subprocess, sys
pid, f, old, new = sys.argv[1:5]
p = '/repo/' + f
s = open(p).read()
if s.count(old) < 1:
    sys.exit('old text not found')
open(p, 'w').write(s.replace(old, new, 1))
try:
    r = subprocess.run(['/verif/check', pid], cwd='/verif', capture_output=True, text=True)
    lines = [l for l in r.stdout.splitlines() if l.startswith(('FINDING', 'TOOL'))]
    print('exit', r.returncode)
    print('\n'.join(l[:400] for l in lines[:12]))
    if r.returncode not in (0, 1):
        print(r.stdout[-3000:])
finally:
    subprocess.run(['git', '-C', '/repo', 'checkout', '--', f])
