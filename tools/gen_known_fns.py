#!/usr/bin/env python3
"""Freeze the list of functions that exist on the reference tree (union over the default/full/unstable configurations).
The inliner treats every function NOT in this list as a new helper and analyses its code inside its callers."""
import json, os, sys
sys.path.insert(0, '/verif')
from scyllalint import extract, mir
names = set()
for cfg in ("default", "full", "unstable"):
    d, _ = extract.facts_dir(cfg)
    f = mir.Facts(d, extract.CONFIGS[cfg][3])
    for p in f.bodies.keys():
        if "::promoted[" in p or "{closure" in p.split("::")[-1]:
            continue
        names.add(p)
out = '/verif/scyllalint/known_fns.json'
json.dump(sorted(names), open(out, 'w'), indent=0)
print(len(names), 'functions ->', out)
