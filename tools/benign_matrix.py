#!/usr/bin/env python3
"""benign_matrix.py <dir-with-*.diff> [out.json] — apply each behaviour-preserving diff to /repo, run EVERY check (quick), undo.
Any VIOLATION is a false alarm to be triaged. Only run when /repo is clean and idle."""
import glob, json, os, subprocess, sys
from concurrent.futures import ThreadPoolExecutor
args = [a for a in sys.argv[1:] if not a.startswith('--')]
d = args[0]
out = args[1] if len(args) > 1 else os.path.join(d, 'BENIGN_MATRIX.json')
REPO = os.environ.get('VERIF_REPO', '/repo')
CHECK = os.environ.get('VERIF_CHECK', '/verif/check')
SKIP = set(os.environ.get('VERIF_SKIP', '').split(','))
PIDS = [c['property_id'] for c in json.load(open('/verif/MANIFEST.json'))['checks'] if c['property_id'] not in SKIP]
st = subprocess.run(['git', '-C', REPO, 'status', '--porcelain'], capture_output=True, text=True).stdout.strip()
if st:
    sys.exit(REPO + ' is not clean:\n' + st)
res = {}
if os.path.exists(out):
    res = json.load(open(out))


def run(pid):
    r = subprocess.run([CHECK, pid], cwd=os.path.dirname(CHECK), capture_output=True, text=True)
    finds = [l[8:].split(' at ')[0] for l in r.stdout.splitlines() if l.startswith('FINDING ')]
    tool = [l for l in r.stdout.splitlines() if l.startswith('TOOL-FAILURE')]
    return pid, r.returncode, finds, tool


for f in sorted(glob.glob(os.path.join(d, '*.diff'))):
    name = os.path.basename(f)[:-5]
    if name in res and '--force' not in sys.argv:
        continue
    a = subprocess.run(['git', '-C', REPO, 'apply', f], capture_output=True, text=True)
    if a.returncode != 0:
        res[name] = {'applies': False, 'err': a.stderr[-300:]}
        print(name, 'DOES NOT APPLY')
        continue
    try:
        # first check alone (does the extraction once), then the rest in parallel on the cached facts
        first = run(PIDS[0])
        with ThreadPoolExecutor(8) as ex:
            rest = list(ex.map(run, PIDS[1:]))
        alarms = {pid: finds for pid, rc, finds, tool in [first] + rest if rc == 1}
        tools = {pid: tool for pid, rc, finds, tool in [first] + rest if rc not in (0, 1)}
        res[name] = {'applies': True, 'alarms': alarms, 'tool_failures': tools}
        print(name, 'ALARMS ' + json.dumps(alarms) if alarms else 'silent', ('TOOL ' + str(list(tools))) if tools else '')
    finally:
        subprocess.run(['git', '-C', REPO, 'checkout', '--', '.'])
        subprocess.run(['git', '-C', REPO, 'clean', '-fdq', '-e', 'Cargo.lock'])
    json.dump(res, open(out, 'w'), indent=1)
