#!/bin/sh
# devrun.sh <patch.diff> <PID>...  — like seedrun.sh but on the scratch tree /tmp/devrepo (so /repo can be busy elsewhere)
P="$1"; shift
export VERIF_REPO=/tmp/devrepo VERIF_WORK=/tmp/devwork
git -C /tmp/devrepo checkout -q -- . && git -C /tmp/devrepo clean -fdq -e Cargo.lock
git -C /tmp/devrepo apply "$P" || exit 3
for pid in "$@"; do
  /verif/check "$pid" | grep -E "^(FINDING|TOOL|$pid tier)" | cut -c1-700
done
git -C /tmp/devrepo checkout -q -- . && git -C /tmp/devrepo clean -fdq -e Cargo.lock
