//! Fixed family of structs deriving the driver's (de)serialization traits. It is compiled under the mirfacts driver so that the
//! GENERATED code can be analysed; nothing here is ever executed. The sidecar table `FAMILY` in scyllalint/rules/c16.py lists,
//! per struct, the declared CQL names of its fields.
#![allow(dead_code)]
use scylla::{DeserializeRow, DeserializeValue, SerializeRow, SerializeValue};

// ---- rows, by name (default flavor) ------------------------------------------------------------------------------------
#[derive(SerializeRow, DeserializeRow)]
pub struct RowPlain {
    pub a: i32,
    pub b: String,
    pub c: Option<i64>,
}

#[derive(SerializeRow, DeserializeRow)]
pub struct RowRenamed {
    #[scylla(rename = "x")]
    pub a: i32,
    #[scylla(rename = "a")]
    pub b: String,
    pub c: f64,
}

#[derive(SerializeRow, DeserializeRow)]
pub struct RowSkip {
    pub a: i32,
    #[scylla(skip)]
    pub ignored: String,
    pub c: bool,
}

#[derive(SerializeRow)]
pub struct Innermost {
    pub z: i32,
}

#[derive(SerializeRow)]
pub struct Middle {
    #[scylla(flatten)]
    pub innermost: Innermost,
    pub y: String,
}

#[derive(SerializeRow)]
pub struct Outer {
    #[scylla(flatten)]
    pub middle: Middle,
    pub x: i64,
    pub w: bool,
}

#[derive(DeserializeRow)]
pub struct RowDefaults {
    pub a: i32,
    #[scylla(default_when_null)]
    pub b: String,
    pub c: Option<i64>,
}

// ---- rows, ordered flavor ----------------------------------------------------------------------------------------------
#[derive(SerializeRow, DeserializeRow)]
#[scylla(flavor = "enforce_order")]
pub struct RowOrdered {
    pub a: i32,
    #[scylla(rename = "bb")]
    pub b: String,
    pub c: i64,
}

#[derive(SerializeRow, DeserializeRow)]
#[scylla(flavor = "enforce_order", skip_name_checks)]
pub struct RowOrderedNoNames {
    pub a: i32,
    pub b: String,
}

// ---- UDTs --------------------------------------------------------------------------------------------------------------
#[derive(SerializeValue, DeserializeValue)]
pub struct UdtPlain {
    pub a: i32,
    pub b: String,
    pub c: Option<i64>,
}

#[derive(SerializeValue, DeserializeValue)]
pub struct UdtRenamed {
    #[scylla(rename = "x")]
    pub a: i32,
    #[scylla(rename = "a")]
    pub b: String,
}

#[derive(SerializeValue, DeserializeValue)]
#[scylla(forbid_excess_udt_fields)]
pub struct UdtStrict {
    pub a: i32,
    #[scylla(skip)]
    pub ignored: String,
    #[scylla(default_when_null)]
    pub b: String,
    #[scylla(allow_missing)]
    pub c: Option<i64>,
}

#[derive(SerializeValue, DeserializeValue)]
#[scylla(flavor = "enforce_order")]
pub struct UdtOrdered {
    pub a: i32,
    #[scylla(rename = "bb")]
    pub b: String,
}

#[derive(SerializeValue, DeserializeValue)]
#[scylla(flavor = "enforce_order", skip_name_checks)]
pub struct UdtOrderedNoNames {
    pub a: i32,
    pub b: String,
}

#[derive(SerializeValue, DeserializeValue)]
#[scylla(flavor = "enforce_order")]
pub struct UdtOrderedDefaults {
    pub a: i32,
    #[scylla(allow_missing, default_when_null)]
    pub b: i64,
    pub c: Option<i32>,
}

// a required field that FOLLOWS an `allow_missing` one (the missing-field check must still cover it)
#[derive(SerializeValue, DeserializeValue)]
pub struct UdtAllowMissingFirst {
    #[scylla(allow_missing)]
    pub a: i32,
    pub b: String,
    #[scylla(allow_missing)]
    pub c: Option<i64>,
    pub d: i64,
}
