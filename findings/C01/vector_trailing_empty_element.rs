// Demonstration for the C01 defect fixed in /repo commit afec5f4 ("fix: a zero-length last element of a vector deserializes
// as an empty value, not null"). Paste the two tests into scylla-cql-core/src/deserialize/value_tests.rs (they use that file's
// helpers `assert_ser_de_identity`, `serialize`, `deserialize`) and run
//   cargo test --offline -p scylla-cql-core --lib probe_vector_trailing
// Before the fix: the second assertion of the first test fails with
//   VectorError(ElementDeserializationFailed(.. rust_name: "&str", cql_type: Native(Text), kind: ExpectedNonNull ..))
// After the fix both pass.

#[test]
fn probe_vector_trailing_empty_element() {
    assert_ser_de_identity(
        &ColumnType::Vector { typ: Box::new(ColumnType::Native(NativeType::Text)), dimensions: 2 },
        &vec!["", "a"],
        &mut Bytes::new(),
    );
    assert_ser_de_identity(
        &ColumnType::Vector { typ: Box::new(ColumnType::Native(NativeType::Text)), dimensions: 2 },
        &vec!["a", ""],
        &mut Bytes::new(),
    );
}

#[test]
fn probe_vector_trailing_empty_element_cqlvalue() {
    let typ = ColumnType::Vector { typ: Box::new(ColumnType::Native(NativeType::Blob)), dimensions: 2 };
    let v: Vec<Vec<u8>> = vec![vec![1], vec![]];
    let bytes = serialize(&typ, &v);
    let back = deserialize::<CqlValue>(&typ, &bytes).unwrap();
    assert_eq!(back, CqlValue::Vector(vec![CqlValue::Blob(vec![1]), CqlValue::Blob(vec![])]));
}
