//! Demonstration for property C04 (and C12): the ring-ordered view of a NetworkTopologyStrategy replica set
//! must describe the same nodes as its size / iteration views also when the strategy lists a datacenter
//! with replication factor 0 (`ALTER KEYSPACE .. WITH replication = {.., 'us': 0}`).
//! Placed as `scylla/src/routing/locator/ordered_nts_zero_rf_demo.rs`, wired with
//! `#[cfg(test)] mod ordered_nts_zero_rf_demo;` in `locator/mod.rs`.

use std::collections::BTreeSet;

use super::test::{A, G, TABLE_INVALID, create_locator, mock_metadata_for_token_aware_tests};
use crate::cluster::metadata::Strategy;
use crate::routing::Token;

fn nts(repfactors: &[(&str, usize)]) -> Strategy {
    Strategy::NetworkTopologyStrategy {
        datacenter_repfactors: repfactors
            .iter()
            .map(|(dc, rf)| (dc.to_string(), *rf))
            .collect(),
    }
}

// Ring (see `mock_metadata_for_token_aware_tests`):
//   token: 50 100 150 200 250 300 350 400 450 500 550 600 650 700 750 800 900
//   node:   A   B   E   F   A   C   D   A   F   G   D   B   C   C   E   G   B
//   dc:    eu  eu  us  us  eu  eu  us  eu  us  eu  us  eu  eu  eu  us  eu  eu
#[tokio::test]
async fn ordered_nts_replicas_when_a_datacenter_has_rf_zero() {
    let locator = create_locator(&mock_metadata_for_token_aware_tests());
    let strategy = nts(&[("eu", 2), ("us", 0)]);

    let ordered_ids = |token: i64| -> Vec<u16> {
        locator
            .replicas_for_token(Token::new(token), &strategy, None, TABLE_INVALID)
            .into_replicas_ordered()
            .into_iter()
            .map(|(node, _shard)| node.address.port())
            .collect()
    };

    // Token 160 is owned by F, which lives in "us" (RF 0): F holds no data of this keyspace,
    // the primary replica is A, the first "eu" node clockwise.
    assert_eq!(ordered_ids(160), vec![A, G]);

    for token in (0..=950).step_by(25) {
        let set = || locator.replicas_for_token(Token::new(token), &strategy, None, TABLE_INVALID);
        let ordered = ordered_ids(token);
        let iterated: BTreeSet<u16> = set()
            .into_iter()
            .map(|(node, _shard)| node.address.port())
            .collect();
        assert_eq!(ordered.len(), set().len(), "token {token}: ordered view {ordered:?} vs len()");
        assert_eq!(
            ordered.iter().copied().collect::<BTreeSet<u16>>(),
            iterated,
            "token {token}: ordered view {ordered:?} vs iteration"
        );
    }
}
