use scylla_cql::frame::request::query::{Query, QueryParameters};
use scylla_cql::frame::SerializedRequest;
use scylla_cql::frame::response::result::{ColumnType, NativeType};
use scylla_cql::serialize::row::SerializedValues;
use std::borrow::Cow;

#[test]
fn oversize_body_is_refused_not_truncated() {
    let big = vec![0u8; i32::MAX as usize];
    let mut values = SerializedValues::new();
    values.add_value(&big, &ColumnType::Native(NativeType::Blob)).unwrap();
    values.add_value(&big, &ColumnType::Native(NativeType::Blob)).unwrap();
    drop(big);
    let q = Query {
        contents: Cow::Borrowed("INSERT INTO t (a, b) VALUES (?, ?)"),
        parameters: QueryParameters { values: Cow::Borrowed(&values), ..Default::default() },
    };
    match SerializedRequest::make(&q, None, false) {
        Err(_) => {}
        Ok(req) => {
            let data = req.get_data();
            let declared = u32::from_be_bytes(data[5..9].try_into().unwrap()) as usize;
            assert_eq!(declared, data.len() - 9, "length field {} != body size {}", declared, data.len() - 9);
        }
    }
}
