//! Demonstration for the C16 finding "a required field placed after an `allow_missing` field is not checked".
//! Drop into scylla-cql-core/tests/ and run `cargo test --offline -p scylla-cql-core --test missing_required_field`.
//! Before the fix: `serialize` returns Ok for a UDT that lacks the REQUIRED field `b` (the value is silently dropped).
//! After the fix: it is refused with UdtTypeCheckErrorKind::ValueMissingForUdtField { field_name: "b" }.
use std::borrow::Cow;

use scylla_cql_core::SerializeValue;
use scylla_cql_core::frame::response::result::{ColumnType, NativeType, UserDefinedType};
use scylla_cql_core::serialize::value::SerializeValue as _;
use scylla_cql_core::serialize::writers::CellWriter;
use std::sync::Arc;

#[derive(SerializeValue)]
#[scylla(crate = scylla_cql_core)]
struct AllowMissingFirst {
    #[scylla(allow_missing)]
    a: i32,
    b: i32,
}

fn udt(fields: &[&'static str]) -> ColumnType<'static> {
    ColumnType::UserDefinedType {
        frozen: false,
        definition: Arc::new(UserDefinedType {
            name: Cow::Borrowed("t"),
            keyspace: Cow::Borrowed("ks"),
            field_types: fields
                .iter()
                .map(|f| (Cow::Borrowed(*f), ColumnType::Native(NativeType::Int)))
                .collect(),
        }),
    }
}

#[test]
fn required_field_after_allow_missing_field_is_still_required() {
    let v = AllowMissingFirst { a: 1, b: 2 };
    // control: both fields present
    let mut buf = Vec::new();
    v.serialize(&udt(&["a", "b"]), CellWriter::new(&mut buf)).unwrap();
    // the UDT has no field `b`: `b` is not `allow_missing`, so this must be refused
    let mut buf = Vec::new();
    let res = v.serialize(&udt(&["a"]), CellWriter::new(&mut buf));
    assert!(
        res.is_err(),
        "a struct value with the required field `b` was accepted for a UDT without `b`; bytes written: {buf:?}"
    );
    // and the allow_missing field may indeed be missing
    let mut buf = Vec::new();
    v.serialize(&udt(&["b"]), CellWriter::new(&mut buf)).unwrap();
}
