//! Demonstration for two defects of tablet maintenance (property C15), written against the real types.
//! Placed as `scylla/src/routing/locator/tablets/c15_maintenance_demo.rs` and wired with
//! `#[cfg(test)] mod c15_maintenance_demo;` at the end of `tablets.rs`.
use std::collections::{HashMap, HashSet};
use std::sync::Arc;

use uuid::Uuid;

use super::{TableTablets, Tablet};
use crate::cluster::Node;
use crate::routing::Token;
use scylla_cql::frame::response::result::TableSpec;

fn node(id: u128, dc: &str) -> Arc<Node> {
    Arc::new(Node::new_for_test(
        Some(Uuid::from_u128(id)),
        None,
        Some(dc.to_owned()),
        None,
    ))
}

fn node_map(nodes: &[&Arc<Node>]) -> HashMap<Uuid, Arc<Node>> {
    nodes.iter().map(|n| (n.host_id, Arc::clone(n))).collect()
}

/// `ClusterState::perform_tablets_maintenance` passes the NEW known nodes as `all_current_nodes` and, in
/// `recreated_nodes`, the new object of every node whose `Node` was re-created. A tablet that still has
/// unknown replicas is first re-resolved against the new nodes - and then `update_stale_nodes` asserts that
/// the node it holds is NOT the re-created one.
#[test]
fn unknown_replica_resolved_in_the_refresh_that_recreates_another_replica() {
    let node1 = node(1, "dc1");
    let node3_old = node(3, "dc1");
    let node3_new = node(3, "dc1"); // same host id, new object (e.g. its address changed)

    let mut tablets = TableTablets {
        table_spec: TableSpec::borrowed("ks", "tbl"),
        // learnt while node 1 was not known yet: replicas = [node3], raw = [node3, node1]
        tablet_list: vec![Tablet::new_for_test(
            0,
            vec![node3_old.clone()],
            Some(vec![node3_old.host_id, node1.host_id]),
        )],
        has_unknown_replicas: true,
    };

    // what ClusterState::perform_tablets_maintenance computes for old = {3_old}, new = {1, 3_new}
    let removed = HashSet::new();
    let all_current = node_map(&[&node1, &node3_new]);
    let recreated = node_map(&[&node3_new]);

    tablets.perform_maintenance(&removed, &all_current, &recreated);

    let t = &tablets.tablet_list[0];
    assert!(t.failed.is_none());
    assert_eq!(t.replicas.all.len(), 2);
    assert!(Arc::ptr_eq(&t.replicas.all[0].0, &node3_new));
    assert!(Arc::ptr_eq(&t.replicas.all[1].0, &node1));
    let _ = Token::new(0);
}

/// A node that is re-created because its datacenter changed: afterwards every per-DC list must be the
/// restriction of the full replica list to the nodes that are in that datacenter NOW.
#[test]
fn per_dc_lists_follow_a_recreated_node_into_its_new_datacenter() {
    let node1 = node(1, "dc1");
    let node3_old = node(3, "dc1");
    let node3_new = node(3, "dc2");

    let mut tablets = TableTablets {
        table_spec: TableSpec::borrowed("ks", "tbl"),
        tablet_list: vec![Tablet::new_for_test(
            0,
            vec![node3_old.clone(), node1.clone()],
            None,
        )],
        has_unknown_replicas: false,
    };
    let removed = HashSet::new();
    let all_current = node_map(&[&node1, &node3_new]);
    let recreated = node_map(&[&node3_new]);
    tablets.perform_maintenance(&removed, &all_current, &recreated);

    let replicas = &tablets.tablet_list[0].replicas;
    for dc in ["dc1", "dc2"] {
        let want: Vec<Uuid> = replicas
            .all
            .iter()
            .filter(|(n, _)| n.datacenter.as_deref() == Some(dc))
            .map(|(n, _)| n.host_id)
            .collect();
        let got: Vec<Uuid> = replicas
            .per_dc
            .get(dc)
            .map(|v| v.iter().map(|(n, _)| n.host_id).collect())
            .unwrap_or_default();
        assert_eq!(got, want, "replicas restricted to {dc} are not the restriction of the full list");
    }
}
