// Demonstrations for C08 decode defects (scratch worktree only).
use bytes::Bytes;
use scylla_cql::frame::request::query::PagingStateResponse;
use scylla_cql::frame::response::{ResponseOpcode, ResponseV2, ResponseWithDeserializedMetadataV2};
use scylla_cql::frame::protocol_features::ProtocolFeatures;
use scylla_cql::frame::response::result::ResultWithDeserializedMetadata;
use scylla_cql::value::Row;

fn decode(body: Vec<u8>) -> Result<usize, String> {
    let features = ProtocolFeatures::default();
    let resp = ResponseV2::deserialize(&features, ResponseOpcode::Result, Bytes::from(body), None).map_err(|e| e.to_string())?;
    let resp = resp.deserialize_metadata().map_err(|e| e.to_string())?;
    match resp {
        ResponseWithDeserializedMetadataV2::Result(ResultWithDeserializedMetadata::Rows((rows, _ps))) => {
            let _: &PagingStateResponse = &_ps;
            let mut n = 0;
            for r in rows.rows_iter::<Row>().map_err(|e| e.to_string())? {
                r.map_err(|e| e.to_string())?;
                n += 1;
            }
            Ok(n)
        }
        _ => Ok(0),
    }
}

#[test]
fn huge_column_count_is_an_error_not_an_abort() {
    // kind=Rows, flags=global_tables_spec, col_count=0x7fffffff, ks "k", table "t"
    let mut b = vec![0, 0, 0, 2, 0, 0, 0, 1, 0x7f, 0xff, 0xff, 0xff];
    b.extend_from_slice(&[0, 1, b'k', 0, 1, b't']);
    let r = decode(b);
    assert!(r.is_err(), "{:?}", r);
}

#[test]
fn nested_vector_size_overflow_is_not_a_panic() {
    // one column of custom type: five nested VectorType(...,65535) around Int32Type; one row with a 4-byte cell
    let p = "org.apache.cassandra.db.marshal.";
    let mut name = format!("{p}Int32Type");
    for _ in 0..5 {
        name = format!("{p}VectorType({name},65535)");
    }
    let mut b = vec![0, 0, 0, 2, 0, 0, 0, 1, 0, 0, 0, 1];
    b.extend_from_slice(&[0, 1, b'k', 0, 1, b't', 0, 1, b'c']);
    b.extend_from_slice(&[0, 0]); // custom type id
    b.extend_from_slice(&(name.len() as u16).to_be_bytes());
    b.extend_from_slice(name.as_bytes());
    b.extend_from_slice(&[0, 0, 0, 1]); // one row
    b.extend_from_slice(&[0, 0, 0, 4, 1, 2, 3, 4]);
    let r = std::panic::catch_unwind(|| decode(b));
    assert!(r.is_ok(), "decoding panicked");
}
