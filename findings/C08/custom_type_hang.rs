// Demonstration for the C08.R8 defect: decoding result metadata whose custom type NAME is truncated (or has a parameter that
// fails to parse without consuming input) never terminates. Scratch worktree only: copy to scylla-cql/tests/ and run
//   cargo test --offline -p scylla-cql --test custom_type_hang
// On the defective tree both tests fail with "decoding did not terminate within 5 s"; with the fix they pass (the decoder
// answers with an error).
use bytes::Bytes;
use scylla_cql::frame::protocol_features::ProtocolFeatures;
use scylla_cql::frame::response::{ResponseOpcode, ResponseV2};
use std::sync::mpsc;
use std::time::Duration;

fn result_body_with_custom_type(name: &str) -> Vec<u8> {
    // kind = Rows, flags = global_tables_spec, one column `c` of custom type `name`, zero rows
    let mut b = vec![0, 0, 0, 2, 0, 0, 0, 1, 0, 0, 0, 1];
    b.extend_from_slice(&[0, 1, b'k', 0, 1, b't', 0, 1, b'c']);
    b.extend_from_slice(&[0, 0]); // type id 0x0000 = custom
    b.extend_from_slice(&(name.len() as u16).to_be_bytes());
    b.extend_from_slice(name.as_bytes());
    b.extend_from_slice(&[0, 0, 0, 0]);
    b
}

fn decode_with_deadline(body: Vec<u8>) -> Option<bool> {
    let (tx, rx) = mpsc::channel();
    std::thread::spawn(move || {
        let features = ProtocolFeatures::default();
        let ok = match ResponseV2::deserialize(&features, ResponseOpcode::Result, Bytes::from(body), None) {
            Ok(r) => r.deserialize_metadata().is_ok(),
            Err(_) => false,
        };
        let _ = tx.send(ok);
    });
    rx.recv_timeout(Duration::from_secs(5)).ok()
}

#[test]
fn truncated_custom_type_name_is_an_error_not_a_hang() {
    let p = "org.apache.cassandra.db.marshal.";
    // no closing parenthesis: 83 bytes of type name
    let name = format!("{p}ListType({p}Int32Type");
    let r = decode_with_deadline(result_body_with_custom_type(&name));
    assert_eq!(r, Some(false), "decoding did not terminate within 5 s (None) or accepted a malformed type");
}

#[test]
fn parameter_that_fails_without_progress_is_an_error_not_a_hang() {
    let p = "org.apache.cassandra.db.marshal.";
    // a map needs two parameters; the second one is garbage the parser cannot consume
    let name = format!("{p}MapType({p}Int32Type,!!)");
    let r = decode_with_deadline(result_body_with_custom_type(&name));
    assert_eq!(r, Some(false), "decoding did not terminate within 5 s (None) or accepted a malformed type");
}
