// Demonstrations for recorded (not repaired) C08 findings. Scratch worktree only.
use bytes::Bytes;
use scylla_cql::frame::protocol_features::ProtocolFeatures;
use scylla_cql::frame::response::{ResponseOpcode, ResponseV2};
use std::future::Future;
use std::alloc::{GlobalAlloc, Layout, System};
use std::sync::atomic::{AtomicUsize, Ordering};

struct Counting;
static MAX_REQ: AtomicUsize = AtomicUsize::new(0);
unsafe impl GlobalAlloc for Counting {
    unsafe fn alloc(&self, l: Layout) -> *mut u8 {
        MAX_REQ.fetch_max(l.size(), Ordering::Relaxed);
        unsafe { System.alloc(l) }
    }
    unsafe fn alloc_zeroed(&self, l: Layout) -> *mut u8 {
        MAX_REQ.fetch_max(l.size(), Ordering::Relaxed);
        unsafe { System.alloc_zeroed(l) }
    }
    unsafe fn dealloc(&self, p: *mut u8, l: Layout) {
        unsafe { System.dealloc(p, l) }
    }
    unsafe fn realloc(&self, p: *mut u8, l: Layout, n: usize) -> *mut u8 {
        MAX_REQ.fetch_max(n, Ordering::Relaxed);
        unsafe { System.realloc(p, l, n) }
    }
}
#[global_allocator]
static A: Counting = Counting;

fn result_body_with_type(type_bytes: &[u8]) -> Vec<u8> {
    let mut b = vec![0, 0, 0, 2, 0, 0, 0, 1, 0, 0, 0, 1];
    b.extend_from_slice(&[0, 1, b'k', 0, 1, b't', 0, 1, b'c']);
    b.extend_from_slice(type_bytes);
    b.extend_from_slice(&[0, 0, 0, 0]);
    b
}

fn decode(body: Vec<u8>) -> bool {
    let features = ProtocolFeatures::default();
    match ResponseV2::deserialize(&features, ResponseOpcode::Result, Bytes::from(body), None) {
        Ok(r) => r.deserialize_metadata().is_ok(),
        Err(_) => false,
    }
}

#[test]
fn a_frame_header_preallocates_declared_length() {
    // 9-byte header announcing a 0xfffffff0-byte body, then EOF
    let hdr: [u8; 9] = [0x84, 0, 0, 0, 0x08, 0xff, 0xff, 0xff, 0xf0];
    MAX_REQ.store(0, Ordering::Relaxed);
    let mut rd = &hdr[..];
    let mut fut = std::pin::pin!(scylla_cql::frame::read_response_frame(&mut rd));
    let mut cx = std::task::Context::from_waker(std::task::Waker::noop());
    let r = loop {
        if let std::task::Poll::Ready(r) = fut.as_mut().poll(&mut cx) {
            break r;
        }
    };
    assert!(r.is_err());
    let m = MAX_REQ.load(Ordering::Relaxed);
    assert!(m < (1 << 20), "a 9-byte input made the decoder request a {} byte allocation", m);
}

#[test]
fn b_lz4_prefix_preallocates_declared_length() {
    let body: [u8; 5] = [0xff, 0xff, 0xff, 0xf0, 0x00];
    MAX_REQ.store(0, Ordering::Relaxed);
    let r = scylla_cql::frame::decompress(&body, scylla_cql::frame::Compression::Lz4);
    let _ = r;
    let m = MAX_REQ.load(Ordering::Relaxed);
    assert!(m < (1 << 20), "a 5-byte input made the decoder request a {} byte allocation", m);
}

#[test]
fn c_nested_type_ids_do_not_overflow_the_stack() {
    // 100000 nested list<...> type ids (0x0020), 200 KB
    let mut t = Vec::new();
    for _ in 0..100_000 {
        t.extend_from_slice(&[0x00, 0x20]);
    }
    t.extend_from_slice(&[0x00, 0x09]);
    let body = result_body_with_type(&t);
    let h = std::thread::Builder::new().stack_size(2 << 20).spawn(move || decode(body)).unwrap();
    let _ = h.join();
}

#[test]
fn d_nested_custom_type_name_does_not_overflow_the_stack() {
    let p = "org.apache.cassandra.db.marshal.";
    let depth = 2000;
    let mut name = String::new();
    for _ in 0..depth {
        name.push_str(p);
        name.push_str("ListType(");
    }
    name.push_str(p);
    name.push_str("Int32Type");
    for _ in 0..depth {
        name.push(')');
    }
    let mut t = vec![0u8, 0];
    t.extend_from_slice(&(name.len() as u16).to_be_bytes());
    t.extend_from_slice(name.as_bytes());
    let body = result_body_with_type(&t);
    let h = std::thread::Builder::new().stack_size(2 << 20).spawn(move || decode(body)).unwrap();
    let _ = h.join();
}
