#!/bin/sh
# Build the framework offline from files on disk: the mirfacts driver and a warm dependency target dir.
set -e
cd "$(dirname "$0")"
export CARGO_NET_OFFLINE=true
python3 -c "
import sys; sys.path.insert(0,'.')
from scyllalint import extract
extract.build_driver()
for cfg in ('default', 'family'):
    d, info = extract.facts_dir(cfg)
    print('facts:', cfg, d, info)
"
