//! Deliberately violating code, compiled under the mirfacts driver on every run of the checks that have rules whose expected
//! finding count on /repo is zero: those rules must fire here (non-vacuity control). Nothing in this crate is ever executed.
#![allow(dead_code, clippy::all)]

pub mod types {
    pub fn read_int(buf: &mut &[u8]) -> Result<i32, ()> {
        if buf.len() < 4 {
            return Err(());
        }
        let (a, rest) = buf.split_at(4);
        *buf = rest;
        Ok(i32::from_be_bytes([a[0], a[1], a[2], a[3]]))
    }
    pub fn read_short(buf: &mut &[u8]) -> Result<u16, ()> {
        if buf.len() < 2 {
            return Err(());
        }
        let (a, rest) = buf.split_at(2);
        *buf = rest;
        Ok(u16::from_be_bytes([a[0], a[1]]))
    }
}

// ---- C09.R5: narrowing cast of a length --------------------------------------------------------------------------------
pub mod request {
    pub fn write_len_truncating(data: &[u8], out: &mut Vec<u8>) {
        let n = data.len() as u32; // must be reported
        out.extend_from_slice(&n.to_be_bytes());
    }
    pub fn write_len_checked(data: &[u8], out: &mut Vec<u8>) -> Result<(), ()> {
        let n: u32 = data.len().try_into().map_err(|_| ())?; // must NOT be reported
        out.extend_from_slice(&n.to_be_bytes());
        Ok(())
    }
}

// ---- C08: panic census, allocation origins, recursion ------------------------------------------------------------------
pub mod decode {
    use super::types;

    pub fn entry(buf: &mut &[u8]) -> Result<usize, ()> {
        let a = index_with_wire_value(buf)?;
        let b = unwrap_a_read(buf);
        let c = alloc_from_wire32(buf)?.len();
        let d = alloc_from_wire16(buf)?.len();
        let e = alloc_clamped(buf)?.len();
        let f = nested(buf, 0)?;
        Ok(a + b + c + d + e + f)
    }

    pub fn index_with_wire_value(buf: &mut &[u8]) -> Result<usize, ()> {
        let i = types::read_int(buf)? as usize;
        Ok(buf[i] as usize) // bounds assert on a wire value: must be reported
    }

    pub fn unwrap_a_read(buf: &mut &[u8]) -> usize {
        types::read_short(buf).unwrap() as usize // must be reported
    }

    pub fn alloc_from_wire32(buf: &mut &[u8]) -> Result<Vec<u64>, ()> {
        let n = types::read_int(buf)? as usize;
        Ok(Vec::with_capacity(n)) // 32-bit wire field, unclamped: must be reported
    }

    pub fn alloc_from_wire16(buf: &mut &[u8]) -> Result<Vec<u64>, ()> {
        let n = types::read_short(buf)? as usize;
        Ok(Vec::with_capacity(n)) // <= 65535 elements: accepted
    }

    pub fn alloc_clamped(buf: &mut &[u8]) -> Result<Vec<u64>, ()> {
        let n = types::read_int(buf)? as usize;
        Ok(Vec::with_capacity(n.min(buf.len() / 8))) // clamped by the remaining input: accepted
    }

    pub fn nested(buf: &mut &[u8], depth: usize) -> Result<usize, ()> {
        // recursion driven by wire data: must be reported as an unreviewed cycle
        match types::read_short(buf)? {
            0x20 => nested(buf, depth + 1),
            _ => Ok(depth),
        }
    }

    pub fn shift_and_const_index(x: u64) -> u64 {
        let a = [1u8, 2, 3];
        (x >> 3) ^ a[1] as u64 // constant shift / constant index: must be discharged locally
    }
}
